------------------------------ MODULE StateDB ------------------------------
(***************************************************************************)
(* state.StateDB (state/statedb.go, journal.go, state_object.go,           *)
(* keyvalue.go): the journalled account cache on top of the account trie   *)
(* (storage mode "trie") or of the flat key/value store (mode "flat").     *)
(*                                                                         *)
(* Up to NInst StateDB instances exist side by side (instance 1 is the one *)
(* opened from the store, the others are produced by Copy()).  Each        *)
(* instance is the record                                                  *)
(*   objs  s.stateObjects      live objects (partial function on Addr)     *)
(*   base  s.trie / the store  what getStateObject loads when no live      *)
(*                             object exists: acct = account records,      *)
(*                             fstor = the flat store's per-address slots  *)
(*   jrn   s.journal.entries   undo log; journal.dirties is derived from   *)
(*                             it (JDirty)                                 *)
(*   revs  s.validRevisions    <<id, journal index>> stack;  nid =         *)
(*                             s.nextRevisionId                            *)
(*   sd    s.stateObjectsDirty                                             *)
(*   rf    s.refund      lg / ls   s.logs (per tx hash) / s.logSize        *)
(*   sv    ghost: the observable world saved at each valid revision        *)
(* An object is [n nonce, c credits, b balance, t token balances, k code,  *)
(* s storage (dirty over origin over trie, merged), x suicided, d deleted] *)
(*                                                                         *)
(* One action per public call.  The code's own algorithm is kept: every    *)
(* mutator goes through GetOrNewStateObject (Ensure), appends the undo     *)
(* entries the code appends (SetBalance and SetTokenBalance also bump and  *)
(* journal the credits counter; amount 0 only "touches" an empty object),  *)
(* RevertToSnapshot replays the journal backwards and truncates            *)
(* validRevisions, Finalise/Commit walk the dirty sets, Copy copies the    *)
(* trie plus the DIRTY objects only.  What TLC checks is that this         *)
(* algorithm gives exact reverts (RevertExact), exact copies (CopyExact,   *)
(* CleanAgree) and independent instances (Independent).                    *)
(*                                                                         *)
(* Two steps of the algorithm are specified as designed; the code deviates *)
(* from each, and a switch selects the code's version (TLC then reports    *)
(* the property it breaks; the replay finds the same on the real code):    *)
(*  ResetDirties = TRUE: the journal entry of createObject over an         *)
(*    existing object (resetObjectChange) dirties its address.  In the     *)
(*    code (FALSE, as upstream) it does not, so a bare CreateAccount over  *)
(*    a clean account is neither finalised nor carried into a copy:        *)
(*    CopyExact / CleanAgree fail (StateDB_coded_reset.cfg).               *)
(*  RestoreDeleted = TRUE: reverting the creation of an object over a live *)
(*    *deleted* one puts the deleted object back.  The code (FALSE) drops  *)
(*    the map entry and falls back to the store; in flat mode the store    *)
(*    does not see finalised-but-uncommitted deletes (wrappedTrie.TryGet   *)
(*    ignores its pending updates), so the account comes back: RevertExact *)
(*    fails with Flat = TRUE (StateDB_coded_flat.cfg).                     *)
(* Flat = TRUE is the flat storage mode: one shared store without          *)
(* versions, so Commit of one instance makes every other instance stale    *)
(* (the application discards them), new objects read the slots the store   *)
(* has under their address, and Finalise does not change what the store    *)
(* returns.                                                                *)
(* Not modelled (found by the replay on the code instead): deepCopy        *)
(* sharing the Tokens map, and - flat mode - deepCopy dropping the pending *)
(* writes of the storage trie.  Not observable through the getters and not *)
(* modelled: the zero entry SetTokenBalance leaves in the Tokens map.      *)
(* Left out: preimages, the RIPEMD special case of touch.                  *)
(***************************************************************************)
EXTENDS Integers, Sequences, FiniteSets, TLC, Json

CONSTANTS NInst, NAddr, NTok, NSlot, NTx,
          TokArg,      \* token arguments of the token calls; 0 = native token (common.EmptyAddress)
          Amt,         \* amounts of Add* / Sub* calls
          SetV,        \* values of Set* calls (balance, token balance, nonce, credits, code id, slot value)
          Gas,         \* refund amounts
          Ops,         \* enabled public calls
          Flat, DeleteEmpty, Genesis, ResetDirties, RestoreDeleted,
          MaxSteps, MaxSnaps, MaxLogs, MaxVal, MaxRefund

Inst == 1..NInst
Addr == 1..NAddr
Tok  == 1..NTok
Slot == 1..NSlot
Txs  == 1..NTx

VARIABLES st,      \* Inst -> instance record
          steps,   \* number of calls made
          last,    \* label of the last call (output only)
          path     \* the behaviour so far with the expected observables after every call (output only)
vars == <<st, steps, last, path>>

ZeroTok  == [t \in Tok |-> 0]
ZeroStor == [s \in Slot |-> 0]
One(S)   == [x \in S |-> IF x = 1 THEN 1 ELSE 0]

NewObj(stor) == [n |-> 0, c |-> 1, b |-> 0, t |-> ZeroTok, k |-> 0, s |-> stor,
                 x |-> FALSE, d |-> FALSE]
Empty(o) == o.n = 0 /\ o.b = 0 /\ o.k = 0        \* stateObject.empty(): tokens and storage do not count

EmptyBase == [acct |-> <<>>, fstor |-> [a \in Addr |-> ZeroStor]]
\* the committed state the harness builds before every behaviour:
\* AddBalance(a1,1) SetTokenBalance(a1,t1,1) SetNonce(a1,1) SetCode(a1,1) SetState(a1,s1,1) Commit
GenesisBase ==
  [acct  |-> (1 :> [n |-> 1, c |-> 3, b |-> 1, t |-> One(Tok), k |-> 1,
                    s |-> IF Flat THEN ZeroStor ELSE One(Slot)]),
   fstor |-> [a \in Addr |-> IF Flat /\ a = 1 THEN One(Slot) ELSE ZeroStor]]

Dead == [al |-> FALSE, objs |-> <<>>, base |-> EmptyBase, jrn |-> <<>>, revs |-> <<>>, nid |-> 0,
         sd |-> {}, rf |-> 0, lg |-> [tx \in Txs |-> <<>>], ls |-> 0, sv |-> <<>>]

(* ---- loading and observing ------------------------------------------- *)
FromRec(r, a) == LET c == r.base.acct[a] IN
  [n |-> c.n, c |-> c.c, b |-> c.b, t |-> c.t, k |-> c.k,
   s |-> IF Flat THEN r.base.fstor[a] ELSE c.s, x |-> FALSE, d |-> FALSE]
ToRec(o) == [n |-> o.n, c |-> o.c, b |-> o.b, t |-> o.t, k |-> o.k, s |-> IF Flat THEN ZeroStor ELSE o.s]
StorBase(r, a) == IF Flat THEN r.base.fstor[a] ELSE ZeroStor   \* what a brand-new object reads

\* getStateObject(a) # nil
Exists(r, a) == IF a \in DOMAIN r.objs THEN ~r.objs[a].d ELSE a \in DOMAIN r.base.acct

Vis(o)  == <<1, o.n, o.c, o.b, o.t, o.k, o.s, IF o.x THEN 1 ELSE 0>>
AbsentV == <<0, 0, 0, 0, ZeroTok, 0, ZeroStor, 0>>
\* everything the getters return for address a:
\* <<exist, nonce, credits, balance, token balances, code, storage, suicided>>
ViewA(r, a) == IF a \in DOMAIN r.objs
               THEN (IF r.objs[a].d THEN AbsentV ELSE Vis(r.objs[a]))
               ELSE (IF a \in DOMAIN r.base.acct THEN Vis(FromRec(r, a)) ELSE AbsentV)
Core(r) == [w |-> [a \in Addr |-> ViewA(r, a)], lg |-> r.lg, rf |-> r.rf]
Obs(r)  == IF r.al
           THEN [al |-> 1, w |-> [a \in Addr |-> ViewA(r, a)], lg |-> r.lg, rf |-> r.rf,
                 v |-> [x \in DOMAIN r.revs |-> r.revs[x].id]]
           ELSE [al |-> 0, w |-> <<>>, lg |-> <<>>, rf |-> 0, v |-> <<>>]

(* ---- the journal ------------------------------------------------------ *)
Dirtied(e) == CASE e.k \in {"refund", "log"} -> {}
                [] e.k = "reset" -> IF ResetDirties THEN {e.a} ELSE {}
                [] OTHER -> {e.a}
JDirty(j)  == UNION {Dirtied(j[x]) : x \in DOMAIN j}     \* keys of journal.dirties
Dirty(r)   == JDirty(r.jrn) \cup r.sd

Remove(f, a) == [x \in DOMAIN f \ {a} |-> f[x]]

\* journalEntry.revert
Undo(r, e) ==
  CASE e.k = "create"  -> IF RestoreDeleted /\ e.pd # <<>>
                          THEN [r EXCEPT !.objs[e.a] = e.pd[1]]
                          ELSE [r EXCEPT !.objs = Remove(@, e.a), !.sd = @ \ {e.a}]
    [] e.k = "reset"   -> [r EXCEPT !.objs[e.a] = e.prev]
    [] e.k = "suicide" -> [r EXCEPT !.objs[e.a] =
                             [@ EXCEPT !.x = e.px,
                                       !.b = IF e.pb > 0 THEN e.pb ELSE @,
                                       !.t = [tt \in Tok |-> IF e.pt[tt] > 0 THEN e.pt[tt] ELSE @[tt]]]]
    [] e.k = "touch"   -> r
    [] e.k = "bal"     -> [r EXCEPT !.objs[e.a].b = e.p]
    [] e.k = "tok"     -> [r EXCEPT !.objs[e.a].t[e.t] = e.p]
    [] e.k = "nonce"   -> [r EXCEPT !.objs[e.a].n = e.p]
    [] e.k = "cred"    -> [r EXCEPT !.objs[e.a].c = e.p]
    [] e.k = "code"    -> [r EXCEPT !.objs[e.a].k = e.p]
    [] e.k = "stor"    -> [r EXCEPT !.objs[e.a].s[e.s] = e.p]
    [] e.k = "refund"  -> [r EXCEPT !.rf = e.p]
    [] e.k = "log"     -> [r EXCEPT !.lg[e.tx] = SubSeq(@, 1, Len(@) - 1), !.ls = @ - 1]

\* journal.revert(statedb, m): undo entries n, n-1, .., m+1
RECURSIVE UndoTo(_, _, _)
UndoTo(r, n, m) == IF n <= m THEN r ELSE UndoTo(Undo(r, r.jrn[n]), n - 1, m)

(* ---- object access used by the mutators ------------------------------- *)
\* createObject when getStateObject returned nil (absent, or a live deleted object pd)
Create(r, a, pd) == [r EXCEPT !.objs = (a :> NewObj(StorBase(r, a))) @@ @,
                              !.jrn  = Append(@, [k |-> "create", a |-> a, pd |-> pd])]
\* GetOrNewStateObject: afterwards a is a live, non-deleted object
Ensure(r, a) ==
  IF a \in DOMAIN r.objs
  THEN (IF r.objs[a].d THEN Create(r, a, <<r.objs[a]>>) ELSE r)
  ELSE (IF a \in DOMAIN r.base.acct
        THEN [r EXCEPT !.objs = (a :> FromRec(r, a)) @@ @]     \* loaded and cached, clean
        ELSE Create(r, a, <<>>))

Cred(a, o) == [k |-> "cred", a |-> a, p |-> o.c]
\* stateObject.SetBalance / SetTokenBalance: credits+1 (journalled), then the value (journalled)
SetBal(r, a, v) == LET o == r.objs[a] IN
  [r EXCEPT !.objs[a] = [o EXCEPT !.c = o.c + 1, !.b = v],
            !.jrn = @ \o <<Cred(a, o), [k |-> "bal", a |-> a, p |-> o.b]>>]
SetTk(r, a, t, v) ==
  IF t = 0 THEN SetBal(r, a, v)
  ELSE LET o == r.objs[a] IN
       [r EXCEPT !.objs[a] = [o EXCEPT !.c = o.c + 1, !.t[t] = v],
                 !.jrn = @ \o <<Cred(a, o), [k |-> "tok", a |-> a, t |-> t, p |-> o.t[t]]>>]
Cur(o, t) == IF t = 0 THEN o.b ELSE o.t[t]
Touch(r, a) == IF Empty(r.objs[a]) THEN [r EXCEPT !.jrn = Append(@, [k |-> "touch", a |-> a])] ELSE r

(* ---- one step --------------------------------------------------------- *)
\* c = the instance whose observables the call defines (the caller's own, the new copy, the dropped one)
Do(newst, lbl, c) ==
  /\ steps < MaxSteps /\ steps' = steps + 1
  /\ st' = newst /\ last' = lbl
  /\ path' = Append(path, [a |-> lbl, c |-> c, o |-> Obs(newst[c])])
Upd(i, r2, lbl) == Do([st EXCEPT ![i] = r2], lbl, i)
On(op, i) == op \in Ops /\ st[i].al

(* ---- mutators ---------------------------------------------------------- *)
AddBalance(i, a, v) ==
  /\ On("addbal", i)
  /\ LET r1 == Ensure(st[i], a) IN
       /\ r1.objs[a].b + v <= MaxVal
       /\ Upd(i, IF v = 0 THEN Touch(r1, a) ELSE SetBal(r1, a, r1.objs[a].b + v),
              [op |-> "addbal", i |-> i, a |-> a, v |-> v])
SubBalance(i, a, v) ==
  /\ On("subbal", i)
  /\ LET r1 == Ensure(st[i], a) IN
       /\ r1.objs[a].b >= v                  \* callers check CanTransfer first
       /\ Upd(i, IF v = 0 THEN r1 ELSE SetBal(r1, a, r1.objs[a].b - v),
              [op |-> "subbal", i |-> i, a |-> a, v |-> v])
SetBalance(i, a, v) ==
  /\ On("setbal", i)
  /\ Upd(i, SetBal(Ensure(st[i], a), a, v), [op |-> "setbal", i |-> i, a |-> a, v |-> v])
SetTokenBalance(i, a, t, v) ==
  /\ On("settok", i)
  /\ Upd(i, SetTk(Ensure(st[i], a), a, t, v), [op |-> "settok", i |-> i, a |-> a, t |-> t, v |-> v])
AddTokenBalance(i, a, t, v) ==
  /\ On("addtok", i)
  /\ LET r1 == Ensure(st[i], a)  c == Cur(r1.objs[a], t) IN
       /\ c + v <= MaxVal
       /\ Upd(i, IF v = 0 THEN Touch(r1, a) ELSE SetTk(r1, a, t, c + v),
              [op |-> "addtok", i |-> i, a |-> a, t |-> t, v |-> v])
SubTokenBalance(i, a, t, v) ==
  /\ On("subtok", i)
  /\ LET r1 == Ensure(st[i], a)  c == Cur(r1.objs[a], t) IN
       /\ c >= v
       /\ Upd(i, IF v = 0 THEN r1 ELSE SetTk(r1, a, t, c - v),
              [op |-> "subtok", i |-> i, a |-> a, t |-> t, v |-> v])
SetNonce(i, a, v) ==
  /\ On("setnonce", i)
  /\ LET r1 == Ensure(st[i], a) IN
       Upd(i, [r1 EXCEPT !.objs[a].n = v, !.jrn = Append(@, [k |-> "nonce", a |-> a, p |-> r1.objs[a].n])],
           [op |-> "setnonce", i |-> i, a |-> a, v |-> v])
SetCredits(i, a, v) ==
  /\ On("setcred", i)
  /\ LET r1 == Ensure(st[i], a) IN
       Upd(i, [r1 EXCEPT !.objs[a].c = v, !.jrn = Append(@, Cred(a, r1.objs[a]))],
           [op |-> "setcred", i |-> i, a |-> a, v |-> v])
SetCode(i, a, v) ==
  /\ On("setcode", i)
  /\ LET r1 == Ensure(st[i], a) IN
       Upd(i, [r1 EXCEPT !.objs[a].k = v, !.jrn = Append(@, [k |-> "code", a |-> a, p |-> r1.objs[a].k])],
           [op |-> "setcode", i |-> i, a |-> a, v |-> v])
SetState(i, a, s, v) ==
  /\ On("setstate", i)
  /\ LET r1 == Ensure(st[i], a) IN
       Upd(i, IF r1.objs[a].s[s] = v THEN r1      \* same value: nothing journalled
              ELSE [r1 EXCEPT !.objs[a].s[s] = v,
                              !.jrn = Append(@, [k |-> "stor", a |-> a, s |-> s, p |-> r1.objs[a].s[s]])],
           [op |-> "setstate", i |-> i, a |-> a, s |-> s, v |-> v])
\* CreateAccount: createObject + carry the balance of an existing object over
CreateAccount(i, a) ==
  /\ On("create", i)
  /\ LET r == st[i] IN
       Upd(i, IF Exists(r, a)
              THEN LET r1 == Ensure(r, a)  prev == r1.objs[a] IN
                   [r1 EXCEPT !.objs[a] = [NewObj(StorBase(r, a)) EXCEPT !.b = prev.b],
                              !.jrn = Append(@, [k |-> "reset", a |-> a, prev |-> prev])]
              ELSE Create(r, a, IF a \in DOMAIN r.objs THEN <<r.objs[a]>> ELSE <<>>),
           [op |-> "create", i |-> i, a |-> a])
Suicide(i, a) ==
  /\ On("suicide", i)
  /\ LET r == st[i] IN
       IF ~Exists(r, a)
       THEN Upd(i, r, [op |-> "suicide", i |-> i, a |-> a, res |-> 0])
       ELSE LET r1 == Ensure(r, a)  o == r1.objs[a] IN
            Upd(i, [r1 EXCEPT !.objs[a] = [o EXCEPT !.x = TRUE, !.b = 0, !.t = ZeroTok],
                              !.jrn = Append(@, [k |-> "suicide", a |-> a, px |-> o.x, pb |-> o.b, pt |-> o.t])],
                [op |-> "suicide", i |-> i, a |-> a, res |-> 1])
AddLog(i, tx) ==
  /\ On("addlog", i) /\ st[i].ls < MaxLogs
  /\ LET r == st[i] IN
       Upd(i, [r EXCEPT !.lg[tx] = Append(@, <<i, r.ls>>), !.ls = @ + 1,
                        !.jrn = Append(@, [k |-> "log", tx |-> tx])],
           [op |-> "addlog", i |-> i, tx |-> tx])
AddRefund(i, g) ==
  /\ On("addrefund", i) /\ st[i].rf + g <= MaxRefund
  /\ Upd(i, [st[i] EXCEPT !.rf = @ + g, !.jrn = Append(@, [k |-> "refund", p |-> st[i].rf])],
         [op |-> "addrefund", i |-> i, v |-> g])
SubRefund(i, g) ==
  /\ On("subrefund", i) /\ st[i].rf >= g
  /\ Upd(i, [st[i] EXCEPT !.rf = @ - g, !.jrn = Append(@, [k |-> "refund", p |-> st[i].rf])],
         [op |-> "subrefund", i |-> i, v |-> g])

(* ---- snapshots ---------------------------------------------------------- *)
Snapshot(i) ==
  /\ On("snap", i) /\ Len(st[i].revs) < MaxSnaps
  /\ LET r == st[i] IN
       Upd(i, [r EXCEPT !.revs = Append(@, [id |-> r.nid, j |-> Len(r.jrn)]), !.nid = @ + 1,
                        !.sv = Append(@, Core(r))],
           [op |-> "snap", i |-> i, id |-> r.nid])
\* RevertToSnapshot(revs[k].id)
Revert(i, k) ==
  /\ On("revert", i) /\ k \in DOMAIN st[i].revs
  /\ LET r == st[i]  m == r.revs[k].j  r1 == UndoTo(r, Len(r.jrn), m) IN
       Upd(i, [r1 EXCEPT !.jrn = SubSeq(@, 1, m), !.revs = SubSeq(@, 1, k - 1), !.sv = SubSeq(@, 1, k - 1)],
           [op |-> "revert", i |-> i, k |-> k, id |-> r.revs[k].id])
\* RevertToSnapshot with an identifier that is not (or no longer) valid: rejected, nothing changes
BadRevert(i, id) ==
  /\ On("badrevert", i) /\ id \in 0..st[i].nid
  /\ \A x \in DOMAIN st[i].revs : st[i].revs[x].id # id
  /\ Upd(i, st[i], [op |-> "badrevert", i |-> i, id |-> id])

(* ---- copies -------------------------------------------------------------- *)
\* Copy(): the trie, and the objects in journal.dirties / stateObjectsDirty only
CopyOf(r) == LET D == Dirty(r) \cap DOMAIN r.objs IN
  [al |-> TRUE, objs |-> [a \in D |-> r.objs[a]], base |-> r.base, jrn |-> <<>>, revs |-> <<>>, nid |-> 0,
   sd |-> D, rf |-> r.rf, lg |-> r.lg, ls |-> r.ls, sv |-> <<>>]
Copy(i, j) ==
  /\ On("copy", i) /\ ~st[j].al
  /\ Do([st EXCEPT ![j] = CopyOf(st[i])], [op |-> "copy", i |-> i, j |-> j], j)
Drop(j) ==
  /\ On("drop", j) /\ \E x \in Inst \ {j} : st[x].al
  /\ Do([st EXCEPT ![j] = Dead], [op |-> "drop", i |-> j], j)

(* ---- Finalise / IntermediateRoot / Commit --------------------------------- *)
Gone(o) == o.x \/ (DeleteEmpty /\ Empty(o))
Finalise(r) ==
  LET D    == JDirty(r.jrn) \cap DOMAIN r.objs
      del  == {a \in D : Gone(r.objs[a])}
      upd  == D \ del
      keep == DOMAIN r.base.acct \ del
  IN [r EXCEPT
        !.objs = [a \in DOMAIN r.objs |->
                    IF a \in del THEN [r.objs[a] EXCEPT !.d = TRUE] ELSE r.objs[a]],
        !.base.acct = IF Flat THEN @     \* the flat store does not return pending updates
                      ELSE [a \in keep \cup upd |-> IF a \in upd THEN ToRec(r.objs[a]) ELSE r.base.acct[a]],
        !.sd = @ \cup D, !.jrn = <<>>, !.revs = <<>>, !.sv = <<>>, !.rf = 0]
IRoot(i) ==
  /\ On("iroot", i)
  /\ Upd(i, Finalise(st[i]), [op |-> "iroot", i |-> i])

Committed(r) ==
  LET D    == Dirty(r)
      L    == DOMAIN r.objs
      del  == {a \in L : r.objs[a].x \/ (a \in D /\ DeleteEmpty /\ Empty(r.objs[a]))}
      upd  == (L \cap D) \ del
      keep == DOMAIN r.base.acct \ del
  IN [r EXCEPT
        !.objs = [a \in L |->
                    IF a \in del THEN [r.objs[a] EXCEPT !.d = TRUE] ELSE r.objs[a]],
        !.base = [acct  |-> [a \in keep \cup upd |-> IF a \in upd THEN ToRec(r.objs[a]) ELSE r.base.acct[a]],
                  fstor |-> [a \in Addr |-> IF Flat /\ a \in upd THEN r.objs[a].s ELSE r.base.fstor[a]]],
        !.sd = {}, !.jrn = <<>>, !.revs = <<>>, !.sv = <<>>, !.rf = 0]
Commit(i) ==
  /\ On("commit", i)
  /\ IF Flat
     THEN Do([x \in Inst |-> IF x = i THEN Committed(st[i]) ELSE Dead], [op |-> "commit", i |-> i], i)
     ELSE Upd(i, Committed(st[i]), [op |-> "commit", i |-> i])

(* ---- specification --------------------------------------------------------- *)
Init0 == [i \in Inst |-> IF i = 1 THEN [Dead EXCEPT !.al = TRUE, !.base = IF Genesis THEN GenesisBase ELSE EmptyBase]
                         ELSE Dead]
Init == /\ st = Init0 /\ steps = 0 /\ last = [op |-> "init"]
        /\ path = <<[a |-> [op |-> "init"], c |-> 1, o |-> Obs(Init0[1])]>>

Next ==
  \E i \in Inst :
     \/ \E a \in Addr :
          \/ \E v \in Amt : AddBalance(i, a, v) \/ SubBalance(i, a, v)
          \/ \E v \in SetV : SetBalance(i, a, v) \/ SetNonce(i, a, v) \/ SetCredits(i, a, v) \/ SetCode(i, a, v)
          \/ \E t \in TokArg : \/ \E v \in SetV : SetTokenBalance(i, a, t, v)
                               \/ \E v \in Amt : AddTokenBalance(i, a, t, v) \/ SubTokenBalance(i, a, t, v)
          \/ \E s \in Slot, v \in SetV : SetState(i, a, s, v)
          \/ CreateAccount(i, a) \/ Suicide(i, a)
     \/ \E tx \in Txs : AddLog(i, tx)
     \/ \E g \in Gas : AddRefund(i, g) \/ SubRefund(i, g)
     \/ Snapshot(i)
     \/ \E k \in 1..MaxSnaps : Revert(i, k)
     \/ \E id \in 0..MaxSteps : BadRevert(i, id)
     \/ \E j \in Inst : Copy(i, j)
     \/ Drop(i)
     \/ IRoot(i) \/ Commit(i)

Spec == Init /\ [][Next]_vars

(* ---- what TLC checks --------------------------------------------------------- *)
TypeOK ==
  /\ steps \in 0..MaxSteps
  /\ \A i \in Inst : LET r == st[i] IN
       /\ r.al \in BOOLEAN /\ DOMAIN r.objs \subseteq Addr /\ DOMAIN r.base.acct \subseteq Addr
       /\ r.sd \subseteq Addr /\ r.rf \in 0..MaxRefund /\ r.ls \in 0..MaxLogs /\ r.nid \in 0..MaxSteps
       /\ \A a \in DOMAIN r.objs : LET o == r.objs[a] IN
            /\ o.n \in Nat /\ o.c \in Nat /\ o.b \in 0..MaxVal /\ o.k \in Nat
            /\ o.t \in [Tok -> Nat] /\ o.s \in [Slot -> Nat]
            /\ o.x \in BOOLEAN /\ o.d \in BOOLEAN
       /\ (~r.al => r = Dead)

RECURSIVE LogCount(_, _)
LogCount(lg, n) == IF n = 0 THEN 0 ELSE Len(lg[n]) + LogCount(lg, n - 1)
\* validRevisions is a stack: ids increase, journal indexes do not decrease and stay inside the journal
RevsWellFormed ==
  \A i \in Inst : LET r == st[i] IN
     /\ Len(r.sv) = Len(r.revs)
     /\ \A x \in DOMAIN r.revs : r.revs[x].id < r.nid /\ r.revs[x].j <= Len(r.jrn)
     /\ \A x, y \in DOMAIN r.revs : x < y => r.revs[x].id < r.revs[y].id /\ r.revs[x].j <= r.revs[y].j
     /\ r.ls = LogCount(r.lg, NTx)

\* Copy() dereferences s.stateObjects[a] for every a in stateObjectsDirty
DirtyLive == \A i \in Inst : Dirty(st[i]) \subseteq DOMAIN st[i].objs

\* A live object that is not dirty is what the trie / store returns: the reason why copying
\* only the dirty objects is enough.
CleanAgree ==
  \A i \in Inst : LET r == st[i] IN
    \A a \in DOMAIN r.objs \ Dirty(r) :
       IF r.objs[a].d THEN a \notin DOMAIN r.base.acct
       ELSE a \in DOMAIN r.base.acct /\ Vis(FromRec(r, a)) = Vis(r.objs[a])

\* the step is a call (the simulation scheduler of StateDBSim adds steps that are not)
Called == steps' = steps + 1
\* RevertToSnapshot restores every observable to its value at Snapshot time
RevertExact ==
  [][ Called /\ last'.op = "revert" => Core(st'[last'.i]) = st[last'.i].sv[last'.k] ]_vars
\* a rejected revert changes nothing; an accepted one removes the revision and everything above it
RevertStack ==
  [][ /\ Called /\ last'.op = "badrevert" => st' = st
      /\ Called /\ last'.op = "revert" => Len(st'[last'.i].revs) = last'.k - 1 ]_vars
\* the copy observes what the original observes, the original is not changed by being copied
CopyExact ==
  [][ Called /\ last'.op = "copy" =>
        LET r == st[last'.i]  c == st'[last'.j] IN
          /\ \A a \in Addr : ViewA(c, a) = ViewA(r, a)
          /\ c.lg = r.lg /\ c.rf = r.rf
          /\ st'[last'.i] = r ]_vars
\* a call on one instance changes no other instance (flat mode: except that a commit retires them)
Independent ==
  [][ Called => \A x \in Inst :
        \/ x = last'.i
        \/ (last'.op = "copy" /\ x = last'.j)
        \/ (Flat /\ last'.op = "commit" /\ st'[x] = Dead)
        \/ st'[x] = st[x] ]_vars
\* Finalise and Commit change no observable except: suicided (and, with DeleteEmpty, empty dirty)
\* accounts disappear and the refund counter is reset
FinaliseKeeps ==
  [][ Called /\ last'.op \in {"iroot", "commit"} =>
        LET r == st[last'.i]  q == st'[last'.i] IN
          /\ q.lg = r.lg /\ q.rf = 0
          /\ \A a \in Addr : \/ ViewA(q, a) = ViewA(r, a)
                             \/ (ViewA(q, a) = AbsentV /\ (ViewA(r, a)[8] = 1 \/ DeleteEmpty)) ]_vars

(* ---- export for the replay harness ------------------------------------------- *)
\* every explored transition, as the complete behaviour leading to it (BFS, -workers 1)
Edge == PrintT(ToJson(path'))
View == <<st, steps>>
=============================================================================
