\* log lists of an original and its copy growing side by side (slice capacity sharing), 8 calls
SPECIFICATION Spec
CONSTANTS
  NInst = 2
  NAddr = 1
  NTok = 1
  NSlot = 1
  NTx = 1
  TokArg = {1}
  Amt = {1}
  SetV = {2}
  Gas = {1}
  Ops = {"addlog","copy","drop"}
  Flat = FALSE
  DeleteEmpty = FALSE
  Genesis = TRUE
  ResetDirties = TRUE
  RestoreDeleted = TRUE
  MaxSteps = 8
  MaxSnaps = 1
  MaxLogs = 6
  MaxVal = 3
  MaxRefund = 2
INVARIANTS TypeOK RevsWellFormed DirtyLive CleanAgree
PROPERTIES RevertExact RevertStack CopyExact Independent FinaliseKeeps
ACTION_CONSTRAINT Edge
VIEW View
CHECK_DEADLOCK FALSE
