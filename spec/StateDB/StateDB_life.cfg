\* account life cycle (self-destruct, finalise, re-create, touch) under snapshots, 5 calls
SPECIFICATION Spec
CONSTANTS
  NInst = 1
  NAddr = 1
  NTok = 1
  NSlot = 1
  NTx = 1
  TokArg = {1}
  Amt = {0, 1}
  SetV = {2}
  Gas = {1}
  Ops = {"addbal","setnonce","create","suicide","iroot","commit","snap","revert","badrevert"}
  Flat = FALSE
  DeleteEmpty = FALSE
  Genesis = TRUE
  ResetDirties = TRUE
  RestoreDeleted = TRUE
  MaxSteps = 5
  MaxSnaps = 2
  MaxLogs = 1
  MaxVal = 3
  MaxRefund = 2
INVARIANTS TypeOK RevsWellFormed DirtyLive CleanAgree
PROPERTIES RevertExact RevertStack CopyExact Independent FinaliseKeeps
ACTION_CONSTRAINT Edge
VIEW View
CHECK_DEADLOCK FALSE
