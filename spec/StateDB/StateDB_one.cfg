\* one instance, one address: every call and nested snapshots, all behaviours of 4 calls
SPECIFICATION Spec
CONSTANTS
  NInst = 1
  NAddr = 1
  NTok = 1
  NSlot = 1
  NTx = 1
  TokArg = {1}
  Amt = {1}
  SetV = {2}
  Gas = {1}
  Ops = {"addbal","subbal","setbal","settok","addtok","subtok","setnonce","setcred","setcode","setstate","create","suicide","addlog","addrefund","subrefund","snap","revert","badrevert","copy","drop","iroot","commit"}
  Flat = FALSE
  DeleteEmpty = FALSE
  Genesis = TRUE
  ResetDirties = TRUE
  RestoreDeleted = TRUE
  MaxSteps = 4
  MaxSnaps = 2
  MaxLogs = 2
  MaxVal = 3
  MaxRefund = 2
INVARIANTS TypeOK RevsWellFormed DirtyLive CleanAgree
PROPERTIES RevertExact RevertStack CopyExact Independent FinaliseKeeps
ACTION_CONSTRAINT Edge
VIEW View
CHECK_DEADLOCK FALSE
