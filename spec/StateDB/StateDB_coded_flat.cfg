\* as coded, flat mode: reverting the re-creation of a finalised self-destructed account brings the stored account back; TLC reports RevertExact violated (no export)
SPECIFICATION Spec
CONSTANTS
  NInst = 1
  NAddr = 1
  NTok = 1
  NSlot = 1
  NTx = 1
  TokArg = {1}
  Amt = {1}
  SetV = {2}
  Gas = {1}
  Ops = {"addbal","setnonce","suicide","iroot","snap","revert"}
  Flat = TRUE
  DeleteEmpty = FALSE
  Genesis = TRUE
  ResetDirties = TRUE
  RestoreDeleted = FALSE
  MaxSteps = 5
  MaxSnaps = 1
  MaxLogs = 1
  MaxVal = 3
  MaxRefund = 2
INVARIANTS TypeOK RevsWellFormed DirtyLive CleanAgree
PROPERTIES RevertExact RevertStack CopyExact Independent FinaliseKeeps
VIEW View
CHECK_DEADLOCK FALSE
