\* copies, copies of copies, copy while dirty / after IntermediateRoot / after Commit: three instances, all behaviours of 5 calls
SPECIFICATION Spec
CONSTANTS
  NInst = 3
  NAddr = 1
  NTok = 1
  NSlot = 1
  NTx = 1
  TokArg = {1}
  Amt = {1}
  SetV = {2}
  Gas = {1}
  Ops = {"settok","setstate","setcode","addlog","suicide","create","copy","iroot","commit","snap","revert"}
  Flat = FALSE
  DeleteEmpty = FALSE
  Genesis = TRUE
  ResetDirties = TRUE
  RestoreDeleted = TRUE
  MaxSteps = 4
  MaxSnaps = 1
  MaxLogs = 2
  MaxVal = 3
  MaxRefund = 2
INVARIANTS TypeOK RevsWellFormed DirtyLive CleanAgree
PROPERTIES RevertExact RevertStack CopyExact Independent FinaliseKeeps
ACTION_CONSTRAINT Edge
VIEW View
CHECK_DEADLOCK FALSE
